import TwistedModel.Py.Bytes
/-
Model of `twisted.web._flatten` (C28): `escapeForContent`, `attributeEscapingDoneOutside`,
`writeWithAttributeEscaping`, `escapedCDATA`, `escapedComment`, `_getSlotValue` and the
traversal of `_flattenElement` / `_flattenTree` over `twisted.web._stan` objects.

Text is bytes (`str` is UTF-8 encoded by the code before anything else happens to it).

`_flattenElement` is a generator trampoline; what it writes is the concatenation, in
depth-first order, of what every visited object writes, so `flatten` returns those bytes.
`writeWithAttributeEscaping(write)` escapes every chunk written through it with single-byte
replacements, which distribute over concatenation: the attribute value is modelled as
`attrEsc (bytes written by the value's flattening)`.
Both abstractions are discharged in `TwistedModel/Web/FlattenIO.lean` (every `write` call kept apart, the
attribute wrappers applied per chunk, `bufferedWrite`/`flushBuffer` for any `BUFFER_SIZE`) and
`TwistedProps.C28.buffering_invisible`: the chunks delivered upstream, joined, are the bytes `flatten` returns.

The slot stack (`slotData`, one shared Python list) is threaded through the traversal
exactly as the code mutates it: a `Tag` *without* a render directive appends its `slotData`
and never pops it (the frame stays visible to everything flattened later); a `Tag` *with* a
render directive appends, flattens the renderer's result, then pops the **last** element
(whatever it is by then).

Scope restrictions (stated in the correspondence module): slot values held in a frame are
strings/bytes (possibly wrapped in a Deferred by the harness); a render method / `render()` /
Deferred / coroutine is resolved to the tree it returns (`rtag`, `renderable`, `deferred`
carry that tree); `CharRef` is not modelled.  Any exception surfaces from `flattenString`
as `FlattenerError`; `Err` names the wrapped exception.
-/
namespace Twisted.Web.Flatten
open Twisted.Py

/-- `s.replace(bytes([c]), r)` for a single byte `c` -/
def rep1 (c : UInt8) (r : Bytes) (s : Bytes) : Bytes :=
  s.flatMap fun x => if x = c then r else [x]

def amp : Bytes := [38, 97, 109, 112, 59]        -- &amp;
def lt : Bytes := [38, 108, 116, 59]             -- &lt;
def gt : Bytes := [38, 103, 116, 59]             -- &gt;
def quot : Bytes := [38, 113, 117, 111, 116, 59] -- &quot;

/-- `escapeForContent`: `.replace(b"&", b"&amp;").replace(b"<", b"&lt;").replace(b">", b"&gt;")` -/
def escapeForContent (s : Bytes) : Bytes :=
  rep1 62 gt (rep1 60 lt (rep1 38 amp s))

/-- the `_write` of `writeWithAttributeEscaping`: `escapeForContent(data).replace(b'"', b"&quot;")` -/
def attrEsc (s : Bytes) : Bytes :=
  rep1 34 quot (escapeForContent s)

/-- `escapedCDATA`: `data.replace(b"]]>", b"]]]]><![CDATA[>")` (leftmost, non-overlapping) -/
def escapedCDATA : Bytes → Bytes
  | [] => []
  | c :: t@(d :: e :: t2) =>
    if c = 93 ∧ d = 93 ∧ e = 62 then
      [93, 93, 93, 93, 62, 60, 33, 91, 67, 68, 65, 84, 65, 91, 62] ++ escapedCDATA t2
    else c :: escapedCDATA t
  | c :: t => c :: escapedCDATA t

/-- `_commentEnd.sub(rb"--\\1&gt;", data)` with `_commentEnd = re.compile(rb"--(!?)>")`:
    leftmost, non-overlapping; at a position the optional `!` is tried first -/
def subCommentEnd : Bytes → Bytes
  | [] => []
  | c :: t@(d :: e :: t2@(f :: t3)) =>
    if c = 45 ∧ d = 45 ∧ e = 62 then [45, 45] ++ gt ++ subCommentEnd t2
    else if c = 45 ∧ d = 45 ∧ e = 33 ∧ f = 62 then [45, 45, 33] ++ gt ++ subCommentEnd t3
    else c :: subCommentEnd t
  | c :: t@(d :: e :: t2) =>
    if c = 45 ∧ d = 45 ∧ e = 62 then [45, 45] ++ gt ++ subCommentEnd t2
    else c :: subCommentEnd t
  | c :: t => c :: subCommentEnd t

/-- `if data.startswith((b">", b"->")): data = data.replace(b">", b"&gt;", 1)` -/
def leadingGt : Bytes → Bytes
  | [] => []
  | c :: t =>
    if c = 62 then gt ++ t
    else match t with
      | d :: t2 => if c = 45 ∧ d = 62 then 45 :: gt ++ t2 else c :: t
      | [] => c :: t

/-- `if data and data[-1:] == b"-": data += b" "` -/
def trailingDash (s : Bytes) : Bytes :=
  if s.getLast? = some 45 then s ++ [32] else s

/-- `escapedComment` -/
def escapedComment (s : Bytes) : Bytes :=
  trailingDash (leadingGt (subCommentEnd s))

abbrev Frame := List (Bytes × Bytes)
/-- `slotData`: top of the Python list is the head here -/
abbrev Stack := List (Option Frame)

/-- `_getSlotValue` without the default: newest frame first, `None` frames skipped -/
def getSlot (name : Bytes) : Stack → Option Bytes
  | [] => none
  | none :: rest => getSlot name rest
  | some f :: rest =>
    match f.lookup name with
    | some v => some v
    | none => getSlot name rest

inductive Node where
  | text (s : Bytes)
  | comment (s : Bytes)
  | cdata (s : Bytes)
  | slot (name : Bytes)
  | slotD (name : Bytes) (dflt : Node)
  /-- a `Tag` with `render is None`; attributes are the two lists zipped (dict order) -/
  | tag (name : Bytes) (attrNames : List Bytes) (attrVals : List Node) (children : List Node)
        (slotData : Option Frame)
  /-- a `Tag` with a render directive: only its `slotData` and what the render method returns matter -/
  | rtag (slotData : Option Frame) (result : Node)
  | list (ns : List Node)
  | deferred (n : Node)
  | renderable (n : Node)

inductive Mode where
  | content    -- dataEscaper = escapeForContent
  | attr       -- dataEscaper = attributeEscapingDoneOutside
  deriving DecidableEq, Repr

inductive Err where
  | unfilledSlot | valueError | unicode
  deriving DecidableEq, Repr

def escData : Mode → Bytes → Bytes
  | .content, s => escapeForContent s
  | .attr, s => s

def voidElements : List Bytes :=
  [[105, 109, 103], [98, 114], [104, 114], [98, 97, 115, 101], [109, 101, 116, 97], [108, 105, 110, 107],
   [112, 97, 114, 97, 109], [97, 114, 101, 97], [105, 110, 112, 117, 116], [99, 111, 108],
   [98, 97, 115, 101, 102, 111, 110, 116], [105, 115, 105, 110, 100, 101, 120], [102, 114, 97, 109, 101],
   [99, 111, 109, 109, 97, 110, 100], [101, 109, 98, 101, 100], [107, 101, 121, 103, 101, 110],
   [115, 111, 117, 114, 99, 101], [116, 114, 97, 99, 107], [119, 98, 115]]

def cdataOpen : Bytes := [60, 33, 91, 67, 68, 65, 84, 65, 91]   -- <![CDATA[
def cdataClose : Bytes := [93, 93, 62]                           -- ]]>
def commentOpen : Bytes := [60, 33, 45, 45]                      -- <!--
def commentClose : Bytes := [45, 45, 62]                         -- -->

mutual
/-- `_flattenElement(request, root, write, slotData, renderFactory, dataEscaper)`:
    `rf` = "renderFactory is not None"; result = bytes written and the slot stack afterwards. -/
def flatten : Node → Mode → Bool → Stack → Except Err (Bytes × Stack)
  | .text s, m, _, st => .ok (escData m s, st)
  | .slot n, m, _, st =>
    match getSlot n st with
    | some v => .ok (escData m v, st)
    | none => .error .unfilledSlot
  | .slotD n d, m, rf, st =>
    match getSlot n st with
    | some v => .ok (escData m v, st)
    | none => flatten d m rf st
  | .cdata s, _, _, st => .ok (cdataOpen ++ escapedCDATA s ++ cdataClose, st)
  | .comment s, _, _, st => .ok (commentOpen ++ escapedComment s ++ commentClose, st)
  | .rtag sd r, m, rf, st =>
    if rf then
      match flatten r m rf (sd :: st) with
      | .ok (o, st1) => .ok (o, st1.tail)
      | .error e => .error e
    else .error .valueError
  | .tag name ans avs ch sd, m, rf, st =>
    if name = [] then flattenList ch m rf (sd :: st)
    else
      match flattenAttrs ans avs rf (sd :: st) with
      | .error e => .error e
      | .ok (ao, st2) =>
        if ch ≠ [] then
          match flattenList ch .content rf st2 with
          | .ok (co, st3) => .ok ([60] ++ name ++ ao ++ [62] ++ co ++ [60, 47] ++ name ++ [62], st3)
          | .error e => .error e
        else if name.any (· ≥ 128) then .error .unicode     -- nativeString(tagName)
        else if voidElements.contains name then .ok ([60] ++ name ++ ao ++ [32, 47, 62], st2)
        else .ok ([60] ++ name ++ ao ++ [62] ++ [60, 47] ++ name ++ [62], st2)
  | .list ns, m, rf, st => flattenList ns m rf st
  | .deferred n, m, rf, st => flatten n m rf st
  | .renderable n, m, _, st => flatten n m true st

/-- `for element in root: yield keepGoing(element)` -/
def flattenList : List Node → Mode → Bool → Stack → Except Err (Bytes × Stack)
  | [], _, _, st => .ok ([], st)
  | n :: ns, m, rf, st =>
    match flatten n m rf st with
    | .error e => .error e
    | .ok (o, st1) =>
      match flattenList ns m rf st1 with
      | .error e => .error e
      | .ok (o2, st2) => .ok (o ++ o2, st2)

/-- `for k, v in root.attributes.items(): write(b" " + k + b'="'); <flatten v through
    writeWithAttributeEscaping>; write(b'"')` -/
def flattenAttrs : List Bytes → List Node → Bool → Stack → Except Err (Bytes × Stack)
  | k :: ks, v :: vs, rf, st =>
    match flatten v .attr rf st with
    | .error e => .error e
    | .ok (o, st1) =>
      match flattenAttrs ks vs rf st1 with
      | .error e => .error e
      | .ok (o2, st2) => .ok ([32] ++ k ++ [61, 34] ++ attrEsc o ++ [34] ++ o2, st2)
  | _, _, _, st => .ok ([], st)
end

/-- `flattenString(None, root)`: empty slot stack, no render factory, content escaping -/
def flattenString (root : Node) : Except Err Bytes :=
  match flatten root .content false [] with
  | .ok (o, _) => .ok o
  | .error e => .error e

end Twisted.Web.Flatten
